// Package schedrun is the common main loop of all SCHED harnesses: planning of work units,
// exploration of a unit, continuation hand-over, confirmation of violations by repeated
// replay, replay mode with trace output.
package schedrun

import (
	"crypto/sha1"
	"encoding/json"
	"fmt"
	"os"
	"strings"
	"testing"

	"verif/engine/explore"
	"verif/engine/report"
	"verif/engine/vsched"
)

// Scenario is one closed driver configuration that is explored on its own.
type Scenario struct {
	Name     string       `json:"name"`
	Mode     explore.Mode `json:"mode"`
	Bound    int          `json:"bound"`
	MaxSteps int          `json:"max_steps"`
	Postpone bool         `json:"postpone,omitempty"` // sticky delays (vsched.Options.Postpone)
	Weight   int          `json:"-"`                  // rough relative cost, for grouping into units
}

// Verdict is one oracle failure of one execution.
type Verdict struct {
	Property string
	Clause   string // oracle clause
	Site     string // scenario family / call site (part of the signature)
	Detail   string
}

// Harness describes one SCHED driver.
type Harness struct {
	Name      string
	Scenarios func(res *report.Result) []Scenario
	// Exec runs one execution of the named scenario.
	Exec func(t *testing.T, sc Scenario, o vsched.Options) (*vsched.Sched, any)
	// Check judges one finished execution (panics / deadlocks are judged by the harness too: they
	// are passed in through s).
	Check func(sc Scenario, s *vsched.Sched, obs any) []Verdict
	// Digest is a canonical description of the observable outcome (distinct outcomes are counted).
	Digest func(sc Scenario, s *vsched.Sched, obs any) string
	// Describe renders an observation for replay output.
	Describe func(sc Scenario, s *vsched.Sched, obs any) string
	// UnitsPerTier is the approximate number of work units to plan.
	MaxExecsPerProcess int64
}

type unit struct {
	Scenarios []string       `json:"scenarios,omitempty"`
	Scenario  string         `json:"scenario,omitempty"` // continuation of one scenario
	Stack     []explore.Item `json:"stack,omitempty"`
}

// ReplayFile is the replay format of SCHED violations.
type ReplayFile struct {
	Harness  string        `json:"harness"`
	Scenario Scenario      `json:"scenario"`
	Choices  []int         `json:"choices"`
	Cost     int           `json:"deviations"`
	Trace    []vsched.Step `json:"trace,omitempty"`
}

// Main is the body of TestCheck of a SCHED harness.
func Main(t *testing.T, h Harness) {
	prop := os.Getenv("VERIF_PROP")
	res := report.New(prop, h.Name)
	defer func() {
		if err := res.Write(); err != nil {
			t.Fatal(err)
		}
	}()
	if p := report.ReplayFile(); p != "" {
		replay(t, h, res, p)
		return
	}
	scs := h.Scenarios(res)
	if only := os.Getenv("VERIF_ONLY"); only != "" { // development: restrict the run to the scenarios whose name contains the string
		var keep []Scenario
		for _, sc := range scs {
			if strings.Contains(sc.Name, only) {
				keep = append(keep, sc)
			}
		}
		scs = keep
		res.Cap("development filter VERIF_ONLY=%s: %d scenarios kept", only, len(keep))
	}
	byName := map[string]Scenario{}
	for _, sc := range scs {
		byName[sc.Name] = sc
	}
	if os.Getenv("VERIF_MODE") == "plan" {
		res.Extra["units"] = plan(scs)
		res.Extra["scenarios"] = len(scs)
		return
	}
	var u unit
	if s := os.Getenv("VERIF_UNIT"); s != "" {
		if strings.HasPrefix(s, "@") {
			b, err := os.ReadFile(s[1:])
			if err != nil {
				t.Fatal(err)
			}
			s = string(b)
		}
		if err := json.Unmarshal([]byte(s), &u); err != nil {
			t.Fatal(err)
		}
	} else {
		for _, sc := range scs {
			u.Scenarios = append(u.Scenarios, sc.Name)
		}
	}
	deadline := report.Deadline()
	budget := h.MaxExecsPerProcess
	if budget == 0 {
		budget = 20000
	}
	var conts []unit
	runOne := func(sc Scenario, stack []explore.Item) {
		if budget <= 0 {
			conts = append(conts, unit{Scenario: sc.Name, Stack: orRoot(stack)})
			return
		}
		cfg := explore.Config{Mode: sc.Mode, Bound: sc.Bound, MaxSteps: sc.MaxSteps, MaxExecs: budget, MemCapMB: 3000, Deadline: deadline, Stack: stack, Postpone: sc.Postpone}
		st := explore.Run(t, cfg,
			func(o vsched.Options) (*vsched.Sched, any) { return h.Exec(t, sc, o) },
			func(s *vsched.Sched, obs any, cost int) {
				res.Seen("outcomes", short(sc.Name+"|"+h.Digest(sc, s, obs)))
				vs := h.Check(sc, s, obs)
				if s.Capped {
					res.Count("executions_hit_step_cap", 1)
				}
				for _, v := range vs {
					confirm(t, h, res, sc, s, v, cost)
				}
			})
		budget -= st.Execs
		res.Count("evaluations", st.Execs)
		res.Count("transitions", st.Steps)
		res.Count("states", st.Points)
		res.Count("traces_validated_against_impl", st.Execs)
		bump(res, "max_points_per_execution", int64(st.MaxPoints))
		bump(res, "max_steps_per_execution", int64(st.MaxSteps))
		bump(res, "max_threads", int64(st.MaxThreads))
		if stack == nil {
			res.Count("scenarios", 1)
			res.Sample(4, map[string]any{"scenario": sc.Name, "mode": sc.Mode, "bound": sc.Bound})
		}
		for _, e := range st.EngineErrors {
			res.Note("ENGINE-ERROR %s: %.2000s", sc.Name, e)
			res.Count("engine_errors", 1)
		}
		if st.DeadlineHit {
			res.Cap("deadline reached while exploring scenario %s (bound %d)", sc.Name, sc.Bound)
		}
		if st.StepCapped > 0 {
			res.Cap("%d executions of %s hit the step horizon %d", st.StepCapped, sc.Name, sc.MaxSteps)
		}
		if len(st.Remaining) > 0 {
			conts = append(conts, unit{Scenario: sc.Name, Stack: st.Remaining})
		}
	}
	if u.Scenario != "" {
		sc, ok := byName[u.Scenario]
		if !ok {
			t.Fatalf("unknown scenario %q", u.Scenario)
		}
		runOne(sc, u.Stack)
	}
	for _, n := range u.Scenarios {
		sc, ok := byName[n]
		if !ok {
			t.Fatalf("unknown scenario %q", n)
		}
		runOne(sc, nil)
	}
	// split continuations into chunks so that idle workers can take them
	var out []unit
	for _, c := range conts {
		const chunk = 24
		for i := 0; i < len(c.Stack); i += chunk {
			j := i + chunk
			if j > len(c.Stack) {
				j = len(c.Stack)
			}
			out = append(out, unit{Scenario: c.Scenario, Stack: c.Stack[i:j]})
		}
	}
	if len(out) > 0 {
		res.Extra["continue"] = out
	}
	res.Extra["exhaustive"] = true // the driver clears it if any worker reports a cap
	if res.Counters["engine_errors"] > 0 {
		t.Errorf("engine errors: see notes")
	}
}

var reported = map[string]int{} // signature -> cheapest confirmed cost in this process

func orRoot(s []explore.Item) []explore.Item {
	if s == nil {
		return []explore.Item{{}}
	}
	return s
}

func bump(res *report.Result, name string, v int64) {
	if v > res.Counters[name] {
		res.Counters[name] = v
	}
}

func short(s string) string {
	h := sha1.Sum([]byte(s))
	return fmt.Sprintf("%x", h[:8])
}

// plan groups scenarios into units of roughly equal weight.
func plan(scs []Scenario) []unit {
	total := 0
	for _, sc := range scs {
		total += max(sc.Weight, 1)
	}
	target := max(total/64, 1)
	var out []unit
	var cur unit
	w := 0
	for _, sc := range scs {
		cur.Scenarios = append(cur.Scenarios, sc.Name)
		w += max(sc.Weight, 1)
		if w >= target {
			out = append(out, cur)
			cur, w = unit{}, 0
		}
	}
	if len(cur.Scenarios) > 0 {
		out = append(out, cur)
	}
	return out
}

// confirm replays a violating execution five times; it is reported only if every replay gives
// the same verdict (otherwise some nondeterminism is not owned: engine error).
func confirm(t *testing.T, h Harness, res *report.Result, sc Scenario, s *vsched.Sched, v Verdict, cost int) {
	sig := fmt.Sprintf("%s:%s:%s", v.Property, v.Clause, v.Site)
	res.Count("violating_executions", 1)
	if best, ok := reported[sig]; ok && best <= cost {
		res.ViolateC(v.Property, sig, "", nil, cost) // counted only
		return
	}
	reported[sig] = cost
	choices := s.Choices()
	var trace []vsched.Step
	for k := 0; k < 5; k++ {
		s2, obs2 := h.Exec(t, sc, vsched.Options{Prefix: choices, MaxSteps: sc.MaxSteps, Trace: true, Postpone: sc.Postpone})
		found := false
		for _, v2 := range h.Check(sc, s2, obs2) {
			if v2.Property == v.Property && v2.Clause == v.Clause && v2.Site == v.Site {
				found = true
			}
		}
		if !found || len(s2.Points) != len(s.Points) {
			res.Note("ENGINE-ERROR nondeterministic violation %s in %s: replay %d gave a different result (points %d vs %d)", sig, sc.Name, k, len(s2.Points), len(s.Points))
			res.Count("engine_errors", 1)
			if dir := os.Getenv("VERIF_DIVERGE_DIR"); dir != "" { // diagnostics: the same choices twice more, with traces
				s3, _ := h.Exec(t, sc, vsched.Options{Prefix: choices, MaxSteps: sc.MaxSteps, Trace: true, Postpone: sc.Postpone})
				b, _ := json.MarshalIndent(map[string]any{"scenario": sc, "choices": choices, "points_first": len(s.Points), "points_a": len(s2.Points), "points_b": len(s3.Points),
					"found_a": found, "trace_a": s2.Trace, "trace_b": s3.Trace, "first_points": s.Points, "a_points": s2.Points}, "", " ")
				os.WriteFile(fmt.Sprintf("%s/diverged-%d-%d.json", dir, os.Getpid(), len(choices)), b, 0o644) //nolint:errcheck
			}
			return
		}
		trace = s2.Trace
	}
	if len(trace) > 400 {
		trace = trace[len(trace)-400:]
	}
	res.ViolateC(v.Property, sig, fmt.Sprintf("[%s, %d deviations] %s", sc.Name, cost, v.Detail),
		ReplayFile{Harness: h.Name, Scenario: sc, Choices: choices, Cost: cost, Trace: trace}, cost)
}

func replay(t *testing.T, h Harness, res *report.Result, path string) {
	b, err := os.ReadFile(path)
	if err != nil {
		t.Fatal(err)
	}
	var f struct {
		Replay ReplayFile `json:"replay"`
	}
	if err := json.Unmarshal(b, &f); err != nil {
		t.Fatal(err)
	}
	rp := f.Replay
	s, obs := h.Exec(t, rp.Scenario, vsched.Options{Prefix: rp.Choices, MaxSteps: rp.Scenario.MaxSteps, Trace: true, Postpone: rp.Scenario.Postpone})
	for _, st := range s.Trace {
		fmt.Printf("  %4d  t%-3d %-10s %-34s %s\n", st.I, st.Thread, st.Op, st.At, st.Name)
	}
	if h.Describe != nil {
		fmt.Println(h.Describe(rp.Scenario, s, obs))
	}
	if s.Diverged != "" {
		fmt.Println("  REPLAY DIVERGED:", s.Diverged)
	}
	vs := h.Check(rp.Scenario, s, obs)
	if len(vs) == 0 {
		fmt.Println("  VERDICT none: the schedule no longer violates")
	}
	for _, v := range vs {
		fmt.Printf("  VERDICT %s %s %s: %s\n", v.Property, v.Clause, v.Site, v.Detail)
		res.Violate(v.Property, fmt.Sprintf("%s:%s:%s", v.Property, v.Clause, v.Site), v.Detail, rp)
	}
}
