#!/usr/bin/env python3
"""Instruments /repo's current working tree for engine SCHED.

 - builds engine/instrument,
 - (re)creates the private, instrumented copy of polycry.pt/poly-go under .build/polygo
   (files in GOMODCACHE cannot be replaced through -overlay),
 - rewrites the packages wire, client, watcher/local, channel/multi of /repo into
   .build/ov[-<variant>]/ and writes overlay.json there,
 - writes go.sched.mod / go.sched.sum (go.mod + replace of poly-go).
Prints the overlay file's path on the last line. Honors VERIF_OVERLAY (a go overlay file
describing a variant of /repo: the variant's sources are instrumented instead).
"""
import hashlib, json, os, shutil, subprocess, sys, glob

ROOT = os.path.dirname(os.path.dirname(os.path.abspath(__file__)))
BUILD = os.path.join(ROOT, ".build")
ENV = dict(os.environ, GOFLAGS="-mod=mod", GOPROXY="off", GOSUMDB="off", GOTOOLCHAIN="local")
GO = "go1.26.8"
PKGS = ["wire", "client", "watcher/local", "channel/multi"]
RMW = ["wire", "watcher/local", "channel/multi"]


def run(cmd, **kw):
    p = subprocess.run(cmd, cwd=ROOT, env=ENV, stdout=subprocess.PIPE, stderr=subprocess.STDOUT, text=True, **kw)
    if p.returncode != 0:
        print(p.stdout)
        sys.exit("instrument.py: command failed: %s" % " ".join(cmd))
    return p.stdout


def main():
    os.makedirs(os.path.join(BUILD, "bin"), exist_ok=True)
    inst = os.path.join(BUILD, "bin", "instrument")
    run([GO, "build", "-o", inst, "./engine/instrument"])

    # private copy of poly-go
    modcache = run([GO, "env", "GOMODCACHE"]).strip()
    src = glob.glob(os.path.join(modcache, "polycry.pt", "poly-go@v0.0.0-20220301085937-fb9d71b45a37"))[0]
    dst = os.path.join(BUILD, "polygo")
    stamp = os.path.join(dst, ".instrumented")
    want = hashlib.sha1(open(inst, "rb").read()).hexdigest()
    if not os.path.exists(stamp) or open(stamp).read() != want:
        tmp = dst + ".tmp%d" % os.getpid()
        shutil.rmtree(tmp, ignore_errors=True)
        shutil.copytree(src, tmp)
        for d, _, fs in os.walk(tmp):
            os.chmod(d, 0o755)
            for f in fs:
                os.chmod(os.path.join(d, f), 0o644)
        gm = os.path.join(tmp, "go.mod")
        s = open(gm).read()
        import re
        s = re.sub(r"(?m)^go 1\.\d+(\.\d+)?$", "go 1.23.0", s)
        open(gm, "w").write(s)
        run([inst, "-inplace", "-out", tmp, os.path.join(tmp, "sync")])
        # atomics are visible operations
        b = os.path.join(tmp, "sync", "atomic", "bool.go")
        s = open(b).read()
        s = s.replace('import "sync/atomic"', 'import (\n\t"sync/atomic"\n\n\t"verif/engine/vsched"\n)')
        for m in ["IsSet() bool {", "Set() {", "TrySet() bool {", "Unset() {", "TryUnset() bool {"]:
            s = s.replace("(b *Bool) " + m, "(b *Bool) " + m + ' vsched.PointOp("atomic");')
        open(b, "w").write(s)
        open(os.path.join(tmp, ".instrumented"), "w").write(want)
        shutil.rmtree(dst, ignore_errors=True)
        os.rename(tmp, dst)

    # go.sched.mod
    gm = open(os.path.join(ROOT, "go.mod")).read() + "\nreplace polycry.pt/poly-go => %s\n" % dst
    p = os.path.join(ROOT, "go.sched.mod")
    if not os.path.exists(p) or open(p).read() != gm:
        open(p, "w").write(gm)
    gs = open("/repo/go.sum").read()
    extra = os.path.join(ROOT, "engine", "go.sum.extra")
    if os.path.exists(extra):
        gs += open(extra).read()
    p = os.path.join(ROOT, "go.sched.sum")
    if not os.path.exists(p) or open(p).read() != gs:
        open(p, "w").write(gs)

    # the tree
    variant = os.environ.get("VERIF_OVERLAY", "")
    out = os.path.join(BUILD, "ov")
    cmd = [inst]
    if variant:
        out += "-" + hashlib.sha1(open(variant, "rb").read()).hexdigest()[:10]
        cmd += ["-srcmap", variant]
    os.makedirs(out, exist_ok=True)
    cmd += ["-out", out, "-rmw", ",".join("/repo/" + d for d in RMW)] + ["/repo/" + d for d in PKGS]
    sys.stderr.write(run(cmd))
    print(os.path.join(out, "overlay.json"))


if __name__ == "__main__":
    main()
