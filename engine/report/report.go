// Package report is the result format shared by all harnesses: a harness run (one worker
// process) writes one Result as JSON to $VERIF_OUT; the ./check driver merges the results of
// all workers, matches violations against known_findings.json and writes the evidence file.
package report

import (
	"encoding/json"
	"fmt"
	"os"
	"sort"
	"strconv"
	"strings"
	"sync"
	"time"
)

// Violation is one counterexample. Signature identifies the defect (property : oracle clause
// : site) and is what known_findings.json is matched against; Replay is everything needed
// to re-run exactly this case.
type Violation struct {
	Property  string      `json:"property"`
	Signature string      `json:"signature"`
	Detail    string      `json:"detail"`
	Replay    interface{} `json:"replay"`
	Cost      int         `json:"cost"` // deviations / history length: the driver keeps the cheapest per signature
}

// Result is what one worker reports.
type Result struct {
	mu         sync.Mutex
	Property   string                 `json:"property"`
	Harness    string                 `json:"harness"`
	Tier       string                 `json:"tier"`
	Seed       int64                  `json:"seed"`
	Counters   map[string]int64       `json:"counters"`
	Distinct   map[string][]string    `json:"distinct"` // name -> set (merged by union in the driver)
	Samples    []interface{}          `json:"samples"`
	Violations []Violation            `json:"violations"`
	Caps       []string               `json:"caps"` // every cap that was hit (a run with caps is not exhaustive)
	Notes      []string               `json:"notes"`
	Extra      map[string]interface{} `json:"extra"`
	WallS      float64                `json:"wall_s"`
	t0         time.Time
	distinct   map[string]map[string]bool
	violSeen   map[string]int
}

// New creates a result for the property named by the harness; tier and seed come from the
// environment (VERIF_TIER, VERIF_SEED).
func New(property, harness string) *Result {
	seed, _ := strconv.ParseInt(os.Getenv("VERIF_SEED"), 10, 64)
	tier := os.Getenv("VERIF_TIER")
	if tier == "" {
		tier = "quick"
	}
	return &Result{Property: property, Harness: harness, Tier: tier, Seed: seed,
		Samples: []interface{}{}, Violations: []Violation{}, Caps: []string{}, Notes: []string{},
		Counters: map[string]int64{}, Distinct: map[string][]string{}, Extra: map[string]interface{}{},
		t0: time.Now(), distinct: map[string]map[string]bool{}, violSeen: map[string]int{}}
}

// Thorough reports whether the thorough tier was requested.
func (r *Result) Thorough() bool { return r.Tier == "thorough" }

// Count adds n to a named counter.
func (r *Result) Count(name string, n int64) {
	r.mu.Lock()
	r.Counters[name] += n
	r.mu.Unlock()
}

// Seen records key in the named set of distinct things; returns true if it was new.
func (r *Result) Seen(set, key string) bool {
	r.mu.Lock()
	defer r.mu.Unlock()
	m := r.distinct[set]
	if m == nil {
		m = map[string]bool{}
		r.distinct[set] = m
	}
	if m[key] {
		return false
	}
	m[key] = true
	return true
}

// NDistinct returns the size of a named set.
func (r *Result) NDistinct(set string) int {
	r.mu.Lock()
	defer r.mu.Unlock()
	return len(r.distinct[set])
}

// Sample keeps up to max samples.
func (r *Result) Sample(max int, s interface{}) {
	r.mu.Lock()
	if len(r.Samples) < max {
		r.Samples = append(r.Samples, s)
	}
	r.mu.Unlock()
}

// Cap records that a cap was hit.
func (r *Result) Cap(format string, a ...interface{}) {
	r.mu.Lock()
	r.Caps = append(r.Caps, fmt.Sprintf(format, a...))
	r.mu.Unlock()
}

// Note records free text for the evidence file.
func (r *Result) Note(format string, a ...interface{}) {
	r.mu.Lock()
	r.Notes = append(r.Notes, fmt.Sprintf(format, a...))
	r.mu.Unlock()
}

// Violate records a violation; at most keep per signature are stored with their replay (the
// first one found is the shortest in BFS / lowest-bound order), the rest only counted.
func (r *Result) Violate(property, signature, detail string, replay interface{}) {
	r.mu.Lock()
	defer r.mu.Unlock()
	r.Counters["violations_total"]++
	r.violSeen[signature]++
	if r.violSeen[signature] > 1 {
		return
	}
	if len(detail) > 4000 {
		detail = detail[:4000] + "..."
	}
	r.Violations = append(r.Violations, Violation{Property: property, Signature: signature, Detail: detail, Replay: replay})
}

// ViolateC is Violate with a cost; a cheaper counterexample replaces a stored one.
func (r *Result) ViolateC(property, signature, detail string, replay interface{}, cost int) {
	r.mu.Lock()
	for i := range r.Violations {
		if r.Violations[i].Signature == signature {
			if cost < r.Violations[i].Cost {
				r.Violations[i].Detail, r.Violations[i].Replay, r.Violations[i].Cost = detail, replay, cost
			}
			r.Counters["violations_total"]++
			r.violSeen[signature]++
			r.mu.Unlock()
			return
		}
	}
	r.mu.Unlock()
	r.Violate(property, signature, detail, replay)
	r.mu.Lock()
	r.Violations[len(r.Violations)-1].Cost = cost
	r.mu.Unlock()
}

// NViolations is the number of distinct violation signatures so far.
func (r *Result) NViolations() int {
	r.mu.Lock()
	defer r.mu.Unlock()
	return len(r.Violations)
}

// Write stores the result at $VERIF_OUT (or prints it when unset).
func (r *Result) Write() error {
	r.mu.Lock()
	defer r.mu.Unlock()
	r.WallS = time.Since(r.t0).Seconds()
	for name, m := range r.distinct {
		keys := make([]string, 0, len(m))
		for k := range m {
			keys = append(keys, k)
		}
		sort.Strings(keys)
		r.Distinct[name] = keys
	}
	for sig, n := range r.violSeen {
		r.Counters["viol:"+sig] = int64(n)
	}
	b, err := json.Marshal(r)
	if err != nil {
		return err
	}
	out := os.Getenv("VERIF_OUT")
	if out == "" {
		fmt.Println(string(b))
		return nil
	}
	return os.WriteFile(out, b, 0o644)
}

// Shard returns (i, n) from VERIF_SHARD="i/n" (default 0/1).
func Shard() (int, int) {
	s := os.Getenv("VERIF_SHARD")
	if s == "" {
		return 0, 1
	}
	p := strings.SplitN(s, "/", 2)
	i, _ := strconv.Atoi(p[0])
	n, _ := strconv.Atoi(p[1])
	if n < 1 {
		n = 1
	}
	return i, n
}

// ReplayFile returns the path of a replay file to run instead of the search ("" = search).
func ReplayFile() string { return os.Getenv("VERIF_REPLAY") }

// Deadline returns the internal deadline of this run (zero = none), from VERIF_DEADLINE_S.
func Deadline() time.Time {
	s, _ := strconv.ParseFloat(os.Getenv("VERIF_DEADLINE_S"), 64)
	if s <= 0 {
		return time.Time{}
	}
	return time.Now().Add(time.Duration(s * float64(time.Second)))
}
