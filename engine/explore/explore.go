// Package explore is the stateless depth-first explorer of engine SCHED: it enumerates every
// choice sequence of a driver up to a deviation bound (DESIGN.md 2.3 "Exploration").
package explore

import (
	"fmt"
	"runtime"
	"testing"
	"time"

	"verif/engine/vsched"
)

// Mode selects how deviations are counted.
type Mode string

const (
	// Preempt: switching away from a thread that could continue costs 1; switches at blocking
	// points are free (CHESS-style iterative context bounding). For drivers with <= 4 threads.
	Preempt Mode = "preemption"
	// Delay: every non-default choice costs 1 (delay bounding). For larger drivers.
	Delay Mode = "delay"
)

// Item is one pending node of the search tree: the choice prefix that leads to it.
type Item struct {
	Prefix []int  `json:"p"`
	FP     uint32 `json:"f"`
	Cost   int    `json:"c"`
}

// Config of one exploration (one work unit).
type Config struct {
	Mode       Mode
	Bound      int // maximal total cost of an execution; < 0 = unbounded
	SelectCost int // cost of a non-default select probe order in Preempt mode (Delay: always 1)
	MaxSteps   int
	MaxExecs   int64     // per process; the remaining stack is returned as continuation
	MemCapMB   uint64    // stop (with continuation) when the process holds more than this
	Deadline   time.Time // zero = none; on reaching it the remaining stack is DROPPED and Capped set
	Stack      []Item    // initial stack (nil = the root)
	Postpone   bool      // offer "postpone the default thread" (sticky delay) at every thread point
}

// Stats of one exploration.
type Stats struct {
	Execs, Steps, Points int64
	MaxPoints, MaxSteps  int
	MaxThreads           int
	Remaining            []Item // continuation (exec / memory cap)
	DeadlineHit          bool
	StepCapped           int64
	EngineErrors         []string
}

// Run explores. exec runs one execution with the given options and returns the scheduler
// record plus the harness' observation; check judges it (cost = deviations used).
func Run(t *testing.T, cfg Config, exec func(o vsched.Options) (*vsched.Sched, any), check func(s *vsched.Sched, obs any, cost int)) Stats {
	var st Stats
	stack := cfg.Stack
	if stack == nil {
		stack = []Item{{}}
	}
	if cfg.SelectCost == 0 {
		cfg.SelectCost = 1
	}
	for len(stack) > 0 {
		if cfg.MaxExecs > 0 && st.Execs >= cfg.MaxExecs {
			break
		}
		if !cfg.Deadline.IsZero() && st.Execs%16 == 0 && time.Now().After(cfg.Deadline) {
			st.DeadlineHit = true
			stack = nil
			break
		}
		if cfg.MemCapMB > 0 && st.Execs%256 == 255 {
			var m runtime.MemStats
			runtime.ReadMemStats(&m)
			if m.Sys>>20 > cfg.MemCapMB {
				break
			}
		}
		it := stack[len(stack)-1]
		stack = stack[:len(stack)-1]
		s, obs := exec(vsched.Options{Prefix: it.Prefix, ExpectFP: it.FP, MaxSteps: cfg.MaxSteps, Postpone: cfg.Postpone})
		st.Execs++
		st.Steps += int64(s.Steps)
		st.Points += int64(len(s.Points))
		if len(s.Points) > st.MaxPoints {
			st.MaxPoints = len(s.Points)
		}
		if s.Steps > st.MaxSteps {
			st.MaxSteps = s.Steps
		}
		if n := len(s.Threads()); n > st.MaxThreads {
			st.MaxThreads = n
		}
		if s.Diverged != "" {
			st.EngineErrors = append(st.EngineErrors, fmt.Sprintf("%s (prefix %v)", s.Diverged, it.Prefix))
			continue
		}
		if len(s.Foreign) > 0 {
			st.EngineErrors = append(st.EngineErrors, s.Foreign[0])
			continue
		}
		if len(s.Points) < len(it.Prefix) {
			st.EngineErrors = append(st.EngineErrors, fmt.Sprintf("replay divergence: execution has %d points, prefix %d", len(s.Points), len(it.Prefix)))
			continue
		}
		if s.Capped {
			st.StepCapped++
		}
		check(s, obs, it.Cost)
		// children, pushed so that the earliest point / lowest alternative is explored first
		for i := len(s.Points) - 1; i >= len(it.Prefix) && i >= s.From; i-- {
			p := &s.Points[i]
			for alt := p.N - 1; alt >= 1; alt-- {
				c := it.Cost + devCost(cfg, p, alt)
				if cfg.Bound >= 0 && c > cfg.Bound {
					continue
				}
				pre := make([]int, i+1)
				for k := 0; k < i; k++ {
					pre[k] = s.Points[k].Chosen
				}
				pre[i] = alt
				stack = append(stack, Item{Prefix: pre, FP: p.FP, Cost: c})
			}
		}
	}
	st.Remaining = stack
	return st
}

func devCost(cfg Config, p *vsched.Point, alt int) int {
	if cfg.Mode == Delay {
		return 1
	}
	if p.Kind == "select" {
		return cfg.SelectCost
	}
	if p.Postpone && alt == p.N-1 {
		return 1
	}
	last := p.N - 1
	if p.Postpone {
		last--
	}
	if p.CurEnable || (p.Advance && alt == last) {
		return 1
	}
	return 0
}

// Replay runs exactly one recorded choice sequence with tracing.
func Replay(t *testing.T, choices []int, maxSteps int, postpone bool, exec func(o vsched.Options) (*vsched.Sched, any)) (*vsched.Sched, any) {
	return exec(vsched.Options{Prefix: choices, MaxSteps: maxSteps, Trace: true, Postpone: postpone})
}
