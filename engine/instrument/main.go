// Command instrument rewrites Go packages so that every synchronisation operation goes
// through verif/engine/vsched (DESIGN.md Appendix A.1). It reads the CURRENT sources of the
// given package directories (optionally through a source map, for overlay variants of the
// tree), writes instrumented copies to -out and an overlay.json for `go test -overlay`.
//
//	instrument -out DIR [-rmw dir1,dir2] [-srcmap map.json] pkgdir...
package main

import (
	"bytes"
	"encoding/json"
	"flag"
	"fmt"
	"go/ast"
	"go/format"
	"go/parser"
	"go/printer"
	"go/token"
	"os"
	"path/filepath"
	"strings"

	"golang.org/x/tools/go/ast/astutil"
)

const vs = "__vs"

var (
	counter int
	stats   = map[string]int{}
)

func id(s string) *ast.Ident { return ast.NewIdent(s) }
func sel(x, s string) ast.Expr { return &ast.SelectorExpr{X: id(x), Sel: id(s)} }
func call(fun ast.Expr, args ...ast.Expr) *ast.CallExpr {
	return &ast.CallExpr{Fun: fun, Args: args}
}
func fresh(p string) string { counter++; return fmt.Sprintf("_vs_%s%d", p, counter) }
func define(lhs []ast.Expr, rhs ...ast.Expr) ast.Stmt {
	return &ast.AssignStmt{Lhs: lhs, Tok: token.DEFINE, Rhs: rhs}
}
func isRecv(e ast.Expr) (*ast.UnaryExpr, bool) {
	for {
		p, ok := e.(*ast.ParenExpr)
		if !ok {
			break
		}
		e = p.X
	}
	u, ok := e.(*ast.UnaryExpr)
	return u, ok && u.Op == token.ARROW
}
func exprString(e ast.Expr) string {
	var b bytes.Buffer
	printer.Fprint(&b, token.NewFileSet(), e)
	return b.String()
}

// rewriteSelect returns prelude statements and the replacing switch.
func rewriteSelect(s *ast.SelectStmt) ([]ast.Stmt, ast.Stmt) {
	stats["select"]++
	if len(s.Body.List) == 0 {
		return nil, &ast.ExprStmt{X: call(sel(vs, "Block"))}
	}
	sv := fresh("s")
	hasDefault := false
	for _, c := range s.Body.List {
		if c.(*ast.CommClause).Comm == nil {
			hasDefault = true
		}
	}
	hd := "false"
	if hasDefault {
		hd = "true"
	}
	pre := []ast.Stmt{define([]ast.Expr{id(sv)}, call(sel(vs, "NewSelect"), id(hd)))}
	sw := &ast.SwitchStmt{Tag: call(&ast.SelectorExpr{X: id(sv), Sel: id("Run")}), Body: &ast.BlockStmt{}}
	idx := 0
	for _, c := range s.Body.List {
		cc := c.(*ast.CommClause)
		clause := &ast.CaseClause{Body: cc.Body}
		switch comm := cc.Comm.(type) {
		case nil:
			clause.List = nil // default:
			sw.Body.List = append(sw.Body.List, clause)
			continue
		case *ast.ExprStmt:
			u, _ := isRecv(comm.X)
			cv := fresh("c")
			pre = append(pre, define([]ast.Expr{id(cv)}, u.X),
				&ast.ExprStmt{X: call(sel(vs, "AddRecv"), id(sv), id(cv))})
		case *ast.AssignStmt:
			u, _ := isRecv(comm.Rhs[0])
			cv := fresh("c")
			pre = append(pre, define([]ast.Expr{id(cv)}, u.X),
				&ast.ExprStmt{X: call(sel(vs, "AddRecv"), id(sv), id(cv))})
			fn := "As"
			if len(comm.Lhs) == 2 {
				fn = "As2"
			}
			asg := &ast.AssignStmt{Lhs: comm.Lhs, Tok: comm.Tok, Rhs: []ast.Expr{call(sel(vs, fn), id(cv), id(sv))}}
			clause.Body = append([]ast.Stmt{asg}, cc.Body...)
		case *ast.SendStmt:
			cv, vv := fresh("c"), fresh("v")
			pre = append(pre, define([]ast.Expr{id(cv)}, comm.Chan))
			if isSimpleLit(comm.Value) {
				pre = append(pre, &ast.ExprStmt{X: call(sel(vs, "AddSend"), id(sv), id(cv), comm.Value)})
			} else {
				pre = append(pre, define([]ast.Expr{id(vv)}, comm.Value),
					&ast.ExprStmt{X: call(sel(vs, "AddSend"), id(sv), id(cv), id(vv))})
			}
		default:
			panic(fmt.Sprintf("unexpected comm %T", comm))
		}
		clause.List = []ast.Expr{&ast.BasicLit{Kind: token.INT, Value: fmt.Sprint(idx)}}
		idx++
		sw.Body.List = append(sw.Body.List, clause)
	}
	if !hasDefault {
		// keeps "terminating statement" status of selects whose clauses all return
		sw.Body.List = append(sw.Body.List, &ast.CaseClause{Body: []ast.Stmt{
			&ast.ExprStmt{X: call(id("panic"), &ast.BasicLit{Kind: token.STRING, Value: `"vsched: bad select index"`})}}})
	}
	return pre, sw
}

func isSimpleLit(e ast.Expr) bool {
	switch v := e.(type) {
	case *ast.BasicLit:
		return true
	case *ast.Ident:
		return v.Name == "nil" || v.Name == "true" || v.Name == "false"
	case *ast.CompositeLit:
		return true // e.g. struct{}{}: typed, safe to inline or to assign; inline keeps it simple
	}
	return false
}

func rewriteGo(g *ast.GoStmt) ast.Stmt {
	stats["go"]++
	c := g.Call
	if fl, ok := c.Fun.(*ast.FuncLit); ok && len(c.Args) == 0 && len(fl.Type.Params.List) == 0 && fl.Type.Results == nil {
		return &ast.ExprStmt{X: call(sel(vs, "Go"), fl)}
	}
	var stmts []ast.Stmt
	fv := fresh("f")
	stmts = append(stmts, define([]ast.Expr{id(fv)}, c.Fun))
	inner := &ast.CallExpr{Fun: id(fv), Ellipsis: c.Ellipsis}
	for _, a := range c.Args {
		if isSimpleLit(a) {
			inner.Args = append(inner.Args, a)
			continue
		}
		av := fresh("a")
		stmts = append(stmts, define([]ast.Expr{id(av)}, a))
		inner.Args = append(inner.Args, id(av))
	}
	lit := &ast.FuncLit{Type: &ast.FuncType{Params: &ast.FieldList{}}, Body: &ast.BlockStmt{List: []ast.Stmt{&ast.ExprStmt{X: inner}}}}
	stmts = append(stmts, &ast.ExprStmt{X: call(sel(vs, "Go"), lit)})
	return &ast.BlockStmt{List: stmts}
}

func isFieldSel(e ast.Expr) bool {
	s, ok := e.(*ast.SelectorExpr)
	if !ok {
		return false
	}
	switch x := s.X.(type) {
	case *ast.Ident:
		return true
	case *ast.SelectorExpr:
		return isFieldSel(x)
	}
	return false
}

func rmwSplit(st ast.Stmt, pkgNames map[string]bool) ast.Stmt {
	switch a := st.(type) {
	case *ast.AssignStmt:
		if len(a.Lhs) != 1 || len(a.Rhs) != 1 || !isFieldSel(a.Lhs[0]) {
			return nil
		}
		if root(a.Lhs[0]) != "" && pkgNames[root(a.Lhs[0])] {
			return nil
		}
		var rhs ast.Expr
		switch a.Tok {
		case token.ASSIGN:
			if !strings.Contains(exprString(a.Rhs[0]), exprString(a.Lhs[0])) {
				return nil
			}
			rhs = a.Rhs[0]
		case token.ADD_ASSIGN, token.SUB_ASSIGN, token.MUL_ASSIGN, token.OR_ASSIGN, token.AND_ASSIGN:
			op := map[token.Token]token.Token{token.ADD_ASSIGN: token.ADD, token.SUB_ASSIGN: token.SUB, token.MUL_ASSIGN: token.MUL, token.OR_ASSIGN: token.OR, token.AND_ASSIGN: token.AND}[a.Tok]
			rhs = &ast.BinaryExpr{X: a.Lhs[0], Op: op, Y: &ast.ParenExpr{X: a.Rhs[0]}}
		default:
			return nil
		}
		stats["rmw"]++
		tv := fresh("t")
		return &ast.BlockStmt{List: []ast.Stmt{
			define([]ast.Expr{id(tv)}, rhs),
			&ast.ExprStmt{X: call(sel(vs, "RMW"))},
			&ast.AssignStmt{Lhs: a.Lhs, Tok: token.ASSIGN, Rhs: []ast.Expr{id(tv)}},
		}}
	case *ast.IncDecStmt:
		if !isFieldSel(a.X) || pkgNames[root(a.X)] {
			return nil
		}
		stats["rmw"]++
		op := token.ADD
		if a.Tok == token.DEC {
			op = token.SUB
		}
		tv := fresh("t")
		return &ast.BlockStmt{List: []ast.Stmt{
			define([]ast.Expr{id(tv)}, &ast.BinaryExpr{X: a.X, Op: op, Y: &ast.BasicLit{Kind: token.INT, Value: "1"}}),
			&ast.ExprStmt{X: call(sel(vs, "RMW"))},
			&ast.AssignStmt{Lhs: []ast.Expr{a.X}, Tok: token.ASSIGN, Rhs: []ast.Expr{id(tv)}},
		}}
	}
	return nil
}

func root(e ast.Expr) string {
	for {
		switch x := e.(type) {
		case *ast.SelectorExpr:
			e = x.X
		case *ast.Ident:
			return x.Name
		default:
			return ""
		}
	}
}

func instrumentFile(fset *token.FileSet, f *ast.File, rmw bool) bool {
	// import rewriting
	pkgNames := map[string]bool{}
	timeName := ""
	changedImports := false
	for _, im := range f.Imports {
		p := strings.Trim(im.Path.Value, `"`)
		name := filepath.Base(p)
		if im.Name != nil {
			name = im.Name.Name
		}
		pkgNames[name] = true
		switch p {
		case "sync":
			im.Path.Value = `"verif/engine/vsync"`
			if im.Name == nil {
				im.Name = id("sync")
			}
			changedImports = true
			stats["import sync"]++
		case "golang.org/x/sync/errgroup":
			im.Path.Value = `"verif/engine/verrgroup"`
			if im.Name == nil {
				im.Name = id("errgroup")
			}
			changedImports = true
			stats["import errgroup"]++
		case "time":
			timeName = name
		}
	}
	skip := map[ast.Node]bool{}
	used := false
	pre := func(c *astutil.Cursor) bool {
		if cc, ok := c.Node().(*ast.CommClause); ok && cc.Comm != nil {
			switch comm := cc.Comm.(type) {
			case *ast.ExprStmt:
				if u, ok := isRecv(comm.X); ok {
					skip[u] = true
				}
			case *ast.AssignStmt:
				if u, ok := isRecv(comm.Rhs[0]); ok {
					skip[u] = true
				}
				skip[comm] = true
			case *ast.SendStmt:
				skip[comm] = true
			}
		}
		return true
	}
	post := func(c *astutil.Cursor) bool {
		switch n := c.Node().(type) {
		case *ast.UnaryExpr:
			if n.Op != token.ARROW || skip[n] {
				return true
			}
			stats["recv"]++
			used = true
			fn := "Recv"
			if as, ok := c.Parent().(*ast.AssignStmt); ok && len(as.Lhs) == 2 && len(as.Rhs) == 1 {
				fn = "Recv2"
			}
			if vs2, ok := c.Parent().(*ast.ValueSpec); ok && len(vs2.Names) == 2 && len(vs2.Values) == 1 {
				fn = "Recv2"
			}
			c.Replace(call(sel(vs, fn), n.X))
		case *ast.SendStmt:
			if skip[n] {
				return true
			}
			stats["send"]++
			used = true
			// closure around the original statement: type-correct by construction
			mkOp := func(v ast.Expr) ast.Expr {
				return call(sel(vs, "SendOp"), &ast.FuncLit{Type: &ast.FuncType{Params: &ast.FieldList{}},
					Body: &ast.BlockStmt{List: []ast.Stmt{&ast.SendStmt{Chan: n.Chan, Value: v}}}})
			}
			_ = skip
			if isSimpleLit(n.Value) {
				c.Replace(&ast.ExprStmt{X: mkOp(n.Value)})
			} else {
				vv := fresh("v")
				c.Replace(&ast.BlockStmt{List: []ast.Stmt{
					define([]ast.Expr{id(vv)}, n.Value),
					&ast.ExprStmt{X: mkOp(id(vv))},
				}})
			}
		case *ast.GoStmt:
			used = true
			c.Replace(rewriteGo(n))
		case *ast.SelectStmt:
			if _, ok := c.Parent().(*ast.LabeledStmt); ok {
				return true // handled at the label
			}
			used = true
			p, sw := rewriteSelect(n)
			c.Replace(&ast.BlockStmt{List: append(p, sw)})
		case *ast.LabeledStmt:
			if s, ok := n.Stmt.(*ast.SelectStmt); ok {
				used = true
				p, sw := rewriteSelect(s)
				for _, st := range p {
					c.InsertBefore(st)
				}
				n.Stmt = sw
			}
		case *ast.CallExpr:
			if fn, ok := n.Fun.(*ast.Ident); ok && fn.Name == "close" && len(n.Args) == 1 {
				stats["close"]++
				used = true
				n.Fun = sel(vs, "Close")
			}
			if s, ok := n.Fun.(*ast.SelectorExpr); ok && timeName != "" {
				if x, ok := s.X.(*ast.Ident); ok && x.Name == timeName {
					switch s.Sel.Name {
					case "Sleep", "NewTimer", "After":
						stats["time."+s.Sel.Name]++
						used = true
						n.Fun = sel(vs, s.Sel.Name)
					}
				}
			}
		case *ast.AssignStmt, *ast.IncDecStmt:
			if rmw && !skip[n] {
				if _, inList := c.Parent().(*ast.BlockStmt); inList || isClause(c.Parent()) {
					if r := rmwSplit(n.(ast.Stmt), pkgNames); r != nil {
						used = true
						c.Replace(r)
					}
				}
			}
		}
		return true
	}
	astutil.Apply(f, pre, post)
	if used {
		astutil.AddNamedImport(fset, f, vs, "verif/engine/vsched")
	}
	return used || changedImports
}

func isClause(n ast.Node) bool {
	switch n.(type) {
	case *ast.CaseClause, *ast.CommClause:
		return true
	}
	return false
}

func main() {
	out := flag.String("out", "", "output directory")
	rmwPkgs := flag.String("rmw", "", "comma separated dirs with RMW splitting")
	inplace := flag.Bool("inplace", false, "overwrite the source files instead of writing an overlay (for the private copy of poly-go)")
	srcMap := flag.String("srcmap", "", "JSON {\"Replace\": {orig: alt}}: read alt instead of orig (overlay variants of the tree)")
	flag.Parse()
	alt := map[string]string{}
	if *srcMap != "" {
		b, err := os.ReadFile(*srcMap)
		if err != nil {
			panic(err)
		}
		var o struct{ Replace map[string]string }
		if err := json.Unmarshal(b, &o); err != nil {
			panic(err)
		}
		alt = o.Replace
	}
	overlay := map[string]string{}
	rmw := map[string]bool{}
	for _, d := range strings.Split(*rmwPkgs, ",") {
		rmw[d] = true
	}
	for _, dir := range flag.Args() {
		ents, err := os.ReadDir(dir)
		if err != nil {
			panic(err)
		}
		for _, e := range ents {
			n := e.Name()
			if e.IsDir() || !strings.HasSuffix(n, ".go") || strings.HasSuffix(n, "_test.go") {
				continue
			}
			path := filepath.Join(dir, n)
			src := path
			if a, ok := alt[path]; ok {
				if a == "" {
					continue // file deleted by the overlay
				}
				src = a
			}
			fset := token.NewFileSet()
			f, err := parser.ParseFile(fset, src, nil, parser.ParseComments)
			if err != nil {
				panic(err)
			}
			// keep only build constraints
			var header []string
			for _, cg := range f.Comments {
				if cg.End() >= f.Package {
					break
				}
				for _, c := range cg.List {
					if strings.HasPrefix(c.Text, "//go:build") || strings.HasPrefix(c.Text, "// +build") {
						header = append(header, c.Text)
					}
				}
			}
			f.Comments = nil
			f.Doc = nil
			if !instrumentFile(fset, f, rmw[dir]) {
				if src != path {
					overlay[path] = src
				}
				continue
			}
			var buf bytes.Buffer
			for _, h := range header {
				buf.WriteString(h + "\n")
			}
			if len(header) > 0 {
				buf.WriteString("\n")
			}
			if err := format.Node(&buf, fset, f); err != nil {
				panic(fmt.Sprintf("%s: %v", path, err))
			}
			op := filepath.Join(*out, "__"+strings.ReplaceAll(strings.TrimPrefix(path, "/"), "/", "__"))
			if *inplace {
				op = path
			}
			if old, err := os.ReadFile(op); err != nil || !bytes.Equal(old, buf.Bytes()) {
				tmp := fmt.Sprintf("%s.tmp%d", op, os.Getpid())
				if err := os.WriteFile(tmp, buf.Bytes(), 0o644); err != nil {
					panic(err)
				}
				if err := os.Rename(tmp, op); err != nil {
					panic(err)
				}
			}
			if !*inplace {
				overlay[path] = op
			}
		}
	}
	for o, a := range alt { // files of the variant that are not instrumented stay replaced
		if _, ok := overlay[o]; !ok {
			overlay[o] = a
		}
	}
	b, _ := json.MarshalIndent(map[string]any{"Replace": overlay}, "", " ")
	if !*inplace {
		tmp := filepath.Join(*out, fmt.Sprintf("overlay.json.tmp%d", os.Getpid()))
		os.WriteFile(tmp, b, 0o644)
		os.Rename(tmp, filepath.Join(*out, "overlay.json"))
	}
	fmt.Println("instrumented files:", len(overlay), "stats:", stats)
}
