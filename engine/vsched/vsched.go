// Package vsched is the cooperative scheduler of engine SCHED (DESIGN.md 2.3, Appendix A).
//
// One execution = one testing/synctest bubble. Every registered thread is a real goroutine;
// exactly one holds the token. Instrumented code (engine/instrument) calls into this package
// before every visible operation (channel send/receive/close/select, go statement, lock
// operations via engine/vsync, atomics of poly-go, read-modify-write splits): the thread
// returns the token to the scheduler (a choice point), is resumed, performs the ORIGINAL
// operation, and hands control back once more so that the scheduler can wait for quiescence
// (synctest.Wait) before anybody continues. With no execution active every entry point is a
// pass-through to the plain Go operation.
package vsched

import (
	"fmt"
	"reflect"
	"runtime"
	"strings"
	"testing"
	"testing/synctest"
	"time"
)

type state int

const (
	ready    state = iota // parked at a point, waiting for the token
	running               // holds the token
	resume                // finished its operation, waits to be continued (no choice)
	blocked               // inside a real blocking operation
	disabled              // waiting for a vsync condition (re-evaluated by the scheduler)
	done
)

// AdvanceWindow is the largest jump of virtual time that is offered as a scheduling
// alternative while some thread is still runnable (DESIGN.md 2.3: "a runnable goroutine is
// never starved for longer than 10 ms while a protocol timeout is running").
const AdvanceWindow = 10 * time.Millisecond

// Foreign reports whether the caller is NOT the registered thread that holds the token
// (a library goroutine, e.g. a context timer, calling into instrumented code). Such callers
// only run inside the quiescence barriers and perform their operation directly.
func Foreign() bool {
	s := S
	return s == nil || s.dead || s.cur == nil || s.cur.gid != gid()
}

// Thread is one registered goroutine.
type Thread struct {
	gid   int64
	ID    int
	Name  string
	st    state
	wake  chan struct{}
	cond  func() bool
	Panic string
	op    string
	at    string
	inOp  bool
}

// Point is one recorded choice point.
type Point struct {
	Kind      string // "thread" or "select"
	N         int    // number of alternatives
	Chosen    int
	Enabled   []int // thread ids in canonical order (thread points); -1 = advance time
	CurEnable bool  // the running thread was still enabled (alternative 0 is it): other choices are preemptions
	Advance   bool  // the last alternative (before a postpone alternative) is "let the next short timer fire"
	Postpone  bool  // the very last alternative is "postpone the default thread" (sticky delay)
	Op        string
	At        string
	FP        uint32 // cumulative fingerprint (all points up to this one) for replay-divergence detection
}

// Step is one trace entry (Trace mode).
type Step struct {
	I      int    `json:"i"`
	Thread int    `json:"t"`
	Name   string `json:"name,omitempty"`
	Op     string `json:"op"`
	At     string `json:"at,omitempty"`
}

// Sched is one execution.
type Sched struct {
	thrs      []*Thread
	cur       *Thread
	main      *Thread
	wakeSched chan struct{}
	sleeping  bool
	prefix    []int
	expectFP  uint32
	fp        uint32
	Points    []Point
	Steps     int
	Deadlock  bool // the main thread did not finish and nothing can run, no timer pending
	dead      bool
	Panics    []string
	MaxSteps  int
	Capped    bool
	TraceOn   bool
	Trace     []Step
	Foreign   []string // threads found blocked outside a wrapper (engine error)
	Diverged  string   // replay divergence (engine error)
	short     []time.Time
	From      int // exploration branches only at points >= From (see StartExploration)
	postpone  bool
	postponed map[*Thread]bool
	Start     time.Time
	End       time.Time
}

// S is the active execution (nil = pass-through).
var S *Sched

// Active reports whether an execution is running.
func Active() bool { return S != nil && !S.dead }

func caller() string {
	for skip := 2; skip < 14; skip++ {
		_, file, line, ok := runtime.Caller(skip)
		if !ok {
			break
		}
		if strings.Contains(file, "/engine/vsched/") || strings.Contains(file, "/engine/vsync/") || strings.Contains(file, "/engine/verrgroup/") {
			continue
		}
		if i := strings.Index(file, "/ov/"); i >= 0 { // instrumented copy: recover the original path
			if j := strings.Index(file[i:], "__"); j >= 0 {
				file = strings.TrimSuffix(strings.ReplaceAll(file[i+j:], "__", "/"), ".go")
			}
		}
		file = strings.TrimPrefix(file, "/repo/")
		if i := strings.Index(file, "/polygo/"); i >= 0 {
			file = "poly-go" + file[i+7:]
		}
		return fmt.Sprintf("%s:%d", file, line)
	}
	return "?"
}

func (s *Sched) newThread(name string, fn func()) *Thread {
	t := &Thread{ID: len(s.thrs), Name: name, st: ready, wake: make(chan struct{}), op: "start"}
	s.thrs = append(s.thrs, t)
	go func() {
		t.gid = gid()
		<-t.wake
		defer func() {
			if r := recover(); r != nil {
				buf := make([]byte, 16384)
				t.Panic = fmt.Sprintf("%v\n%s", r, buf[:runtime.Stack(buf, false)])
				s.Panics = append(s.Panics, t.Panic)
			}
			t.st = done
		}()
		fn()
	}()
	return t
}

// Go replaces the go statement: the new goroutine is a registered thread; a panic in it is
// recorded as an observation instead of killing the process.
func Go(fn func()) {
	if !Active() {
		go fn()
		return
	}
	name := ""
	if S.TraceOn {
		name = caller()
	}
	S.newThread(name, fn)
}

// GoNamed is Go with an explicit thread name (drivers).
func GoNamed(name string, fn func()) {
	if !Active() {
		go fn()
		return
	}
	S.newThread(name, fn)
}

func (t *Thread) park() { <-t.wake }

func pre(op string) *Thread {
	s := S
	t := s.cur
	t.st = ready
	t.op = op
	if s.TraceOn {
		t.at = caller()
	}
	t.park()
	t.inOp = true
	return t
}

func (t *Thread) post() {
	s := S
	t.inOp = false
	if s.dead {
		select {}
	}
	if t == s.cur {
		t.st = resume
	} else {
		t.st = ready
		t.op = "woken"
		if s.sleeping {
			select {
			case s.wakeSched <- struct{}{}:
			default:
			}
		}
	}
	t.park()
}

// PointOp is a scheduling point without a blocking operation (lock release, atomics, RMW).
func PointOp(op string) {
	if !Active() || Foreign() {
		return
	}
	pre(op).inOp = false
}

// RMW separates the read from the write of a non-atomic read-modify-write.
func RMW() { PointOp("rmw") }

// StartExploration marks the end of a driver's set-up phase: the explorer does not branch at
// choice points before this call (the set-up runs under the default schedule only).
func StartExploration() {
	if Active() {
		S.From = len(S.Points)
	}
}

// Yield is a plain scheduling point for drivers.
func Yield() { PointOp("yield") }

// WaitCond disables the calling thread until cond holds (evaluated by the scheduler while
// everything is quiescent). Which waiter proceeds first is a scheduler choice.
func WaitCond(op string, cond func() bool) {
	if !Active() {
		for !cond() {
			time.Sleep(time.Microsecond)
		}
		return
	}
	if Foreign() { // library goroutine: wait without the scheduler (virtual time)
		for !cond() {
			time.Sleep(time.Microsecond)
		}
		return
	}
	t := S.cur
	t.st = disabled
	t.cond = cond
	t.op = op
	if S.TraceOn {
		t.at = caller()
	}
	t.park()
}

// Recv replaces <-c.
func Recv[T any](c <-chan T) T {
	if !Active() || Foreign() {
		return <-c
	}
	t := pre("recv")
	v := <-c
	t.post()
	return v
}

// Recv2 replaces v, ok := <-c.
func Recv2[T any](c <-chan T) (T, bool) {
	if !Active() || Foreign() {
		v, ok := <-c
		return v, ok
	}
	t := pre("recv")
	v, ok := <-c
	t.post()
	return v, ok
}

// Send is a typed send for drivers.
func Send[T any](c chan<- T, v T) {
	if !Active() || Foreign() {
		c <- v
		return
	}
	t := pre("send")
	c <- v
	t.post()
}

// SendOp wraps an original send statement.
func SendOp(op func()) {
	if !Active() || Foreign() {
		op()
		return
	}
	t := pre("send")
	op()
	t.post()
}

// Close replaces close(c).
func Close[T any](c chan T) {
	if !Active() || Foreign() {
		close(c)
		return
	}
	t := pre("close")
	close(c)
	t.post()
}

// CloseSendOnly replaces close(c) for send-only channels.
func CloseSendOnly[T any](c chan<- T) {
	if !Active() || Foreign() {
		close(c)
		return
	}
	t := pre("close")
	close(c)
	t.post()
}

// Sleep replaces time.Sleep (virtual time).
func Sleep(d time.Duration) {
	if !Active() || Foreign() {
		time.Sleep(d)
		return
	}
	t := pre("sleep")
	time.Sleep(d)
	t.post()
}

// noteTimer records a short timer so that "the timer fires first" can be offered as a choice.
func noteTimer(d time.Duration) {
	if Active() && d <= AdvanceWindow {
		S.short = append(S.short, time.Now().Add(d))
	}
}

// NewTimer replaces time.NewTimer in instrumented code.
func NewTimer(d time.Duration) *time.Timer { noteTimer(d); return time.NewTimer(d) }

// After replaces time.After in instrumented code.
func After(d time.Duration) <-chan time.Time { noteTimer(d); return time.After(d) }

// Block replaces an empty select.
func Block() {
	if !Active() || Foreign() {
		select {}
	}
	t := pre("block")
	select {}
	t.post() //nolint
}

// Select replaces a select statement.
type Select struct {
	cases []reflect.SelectCase
	def   bool
	val   reflect.Value
	ok    bool
}

// NewSelect starts a select.
func NewSelect(hasDefault bool) *Select { return &Select{def: hasDefault} }

// AddRecv adds a receive case.
func AddRecv(s *Select, c any) {
	s.cases = append(s.cases, reflect.SelectCase{Dir: reflect.SelectRecv, Chan: reflect.ValueOf(c)})
}

// AddSend adds a send case.
func AddSend(s *Select, c any, v any) {
	cv := reflect.ValueOf(c)
	var sv reflect.Value
	if v == nil {
		sv = reflect.Zero(cv.Type().Elem())
	} else {
		sv = reflect.ValueOf(v)
		if et := cv.Type().Elem(); sv.Type() != et {
			sv = sv.Convert(et)
		}
	}
	s.cases = append(s.cases, reflect.SelectCase{Dir: reflect.SelectSend, Chan: cv, Send: sv})
}

// As returns the value received by the chosen case, typed by the channel expression.
func As[T any](_ <-chan T, s *Select) (z T) {
	if s.val.IsValid() {
		reflect.ValueOf(&z).Elem().Set(s.val)
	}
	return
}

// As2 is As with the ok flag.
func As2[T any](c <-chan T, s *Select) (T, bool) { return As(c, s), s.ok }

// Run performs the select: -1 = default clause, otherwise the index of the chosen case.
// Under the scheduler the cases are probed non-blockingly in a cyclic order whose start is an
// explorer choice (every ready case can win); only if none is ready does the thread park in
// one blocking reflect.Select.
func (s *Select) Run() int {
	if !Active() || Foreign() {
		cs := s.cases
		if s.def {
			cs = append(append([]reflect.SelectCase{}, cs...), reflect.SelectCase{Dir: reflect.SelectDefault})
		}
		i, v, ok := reflect.Select(cs)
		s.val, s.ok = v, ok
		if s.def && i == len(s.cases) {
			return -1
		}
		return i
	}
	t := pre("select")
	n := len(s.cases)
	start := 0
	if n > 1 {
		start = S.choose("select", n, "select", t.at, nil, false, false)
	}
	for k := 0; k < n; k++ {
		i := (start + k) % n
		if !s.cases[i].Chan.IsValid() || s.cases[i].Chan.IsNil() {
			continue
		}
		j, v, ok := reflect.Select([]reflect.SelectCase{s.cases[i], {Dir: reflect.SelectDefault}})
		if j == 0 {
			s.val, s.ok = v, ok
			t.post()
			return i
		}
	}
	if s.def {
		t.post()
		return -1
	}
	i, v, ok := reflect.Select(s.cases)
	s.val, s.ok = v, ok
	t.post()
	return i
}

// choose consumes the next choice of the prefix (default 0) and records the point.
func (s *Sched) choose(kind string, n int, op, at string, enabled []int, curEn, adv bool, pp ...bool) int {
	post := len(pp) > 0 && pp[0]
	i := len(s.Points)
	fp := s.fp*16777619 ^ uint32(n) // cumulative over all points so far (choices excluded)
	fp = fp*16777619 ^ uint32(len(kind))
	for _, e := range enabled {
		fp = fp*16777619 ^ uint32(e+7)
	}
	if curEn {
		fp = fp*16777619 ^ 1
	}
	if adv {
		fp = fp*16777619 ^ 2
	}
	if post {
		fp = fp*16777619 ^ 4
	}
	if fp == 0 {
		fp = 1
	}
	s.fp = fp
	c := 0
	if i < len(s.prefix) {
		c = s.prefix[i]
		if c >= n || c < 0 {
			s.Diverged = fmt.Sprintf("replay divergence at point %d: choice %d of %d (%s)", i, c, n, kind)
			c = 0
		}
		if i == len(s.prefix)-1 && s.expectFP != 0 && s.expectFP != fp && s.Diverged == "" {
			s.Diverged = fmt.Sprintf("replay divergence: the %d replayed points (last: %s point, %d alternatives %v) do not match the recorded execution", i+1, kind, n, enabled)
		}
	}
	s.Points = append(s.Points, Point{Kind: kind, N: n, Chosen: c, Op: op, At: at, Enabled: enabled, CurEnable: curEn, Advance: adv, Postpone: post, FP: fp})
	return c
}

// Options of one execution.
type Options struct {
	Prefix   []int  // choices to replay; every later point takes alternative 0
	ExpectFP uint32 // cumulative fingerprint of the recorded execution at the last point of the prefix (0 = unchecked)
	MaxSteps int
	Trace    bool
	// Postpone adds one more alternative to every thread choice point: "postpone the default
	// thread" - it is not scheduled again while any other thread can run (sticky delay). This is
	// what exposes check-then-act windows that need one thread to stand still while a whole
	// protocol round of the others completes.
	Postpone bool
}

// Run executes main under the scheduler and returns the finished execution.
func Run(t *testing.T, o Options, main func()) (s *Sched) {
	s = &Sched{prefix: o.Prefix, expectFP: o.ExpectFP, MaxSteps: o.MaxSteps, TraceOn: o.Trace, postpone: o.Postpone, postponed: map[*Thread]bool{}}
	S = s
	defer func() {
		s.dead = true
		if r := recover(); r != nil {
			msg := fmt.Sprint(r)
			if !strings.HasPrefix(msg, "deadlock:") {
				panic(r)
			}
			if strings.Contains(msg, "all goroutines in bubble are blocked") && s.main != nil && s.main.st != done && len(s.Panics) == 0 && !s.Capped {
				s.Deadlock = true
			}
		}
	}()
	synctest.Test(t, func(_ *testing.T) {
		s.Start = time.Now()
		defer func() { s.End = time.Now() }()
		s.wakeSched = make(chan struct{}, 1)
		s.main = s.newThread("main", main)
		for {
			synctest.Wait()
			s.Steps++
			if s.MaxSteps > 0 && s.Steps > s.MaxSteps {
				s.Capped = true
				return
			}
			if len(s.Panics) > 0 || s.Diverged != "" {
				return
			}
			if s.cur != nil && s.cur.st == resume {
				s.cur.st = running
				s.cur.wake <- struct{}{}
				continue
			}
			if s.cur != nil && s.cur.st == running {
				s.cur.st = blocked
				if !s.cur.inOp { // blocked in uninstrumented code: it would resume without the token
					buf := make([]byte, 1<<16)
					n := runtime.Stack(buf, true)
					s.Foreign = append(s.Foreign, fmt.Sprintf("thread %d (%s) blocked outside a wrapper after op %s\n%s", s.cur.ID, s.cur.Name, s.cur.op, buf[:n]))
					return
				}
			}
			var en []*Thread
			curEn := false
			if c := s.cur; c != nil && (c.st == ready || (c.st == disabled && c.cond())) {
				en = append(en, c)
				curEn = true
			}
			anyBlocked := false
			for _, th := range s.thrs {
				if th == s.cur && curEn {
					continue
				}
				switch {
				case th.st == ready, th.st == disabled && th.cond():
					en = append(en, th)
				case th.st == blocked:
					anyBlocked = true
				}
			}
			if len(en) == 0 {
				if s.main.st == done || !anyBlocked {
					// end of the execution; a main thread that cannot finish with nothing blocked in a
					// real operation (only disabled threads) is a deadlock on vsync objects.
					s.Deadlock = s.main.st != done
					return
				}
				// let virtual time pass until a timer wakes a thread; if no timer is pending the
				// bubble panics with "all goroutines are blocked", handled above.
				s.sleeping = true
				s.cur = nil
				<-s.wakeSched
				// Timers with one and the same deadline fire one after the other, with goroutines
				// running in between: let the instant pass completely (1 ns of virtual time) so that
				// every thread whose timer is due has been woken before the next decision is taken.
				time.Sleep(time.Nanosecond)
				s.sleeping = false
				continue
			}
			// pending short timers: "the timer fires first" is an alternative
			now := time.Now()
			var next time.Time
			k := 0
			for _, d := range s.short {
				if d.After(now) {
					s.short[k] = d
					k++
					if next.IsZero() || d.Before(next) {
						next = d
					}
				}
			}
			s.short = s.short[:k]
			adv := !next.IsZero()
			// postponed threads go to the back; if only postponed threads can run, the first runs again
			if len(s.postponed) > 0 {
				var front, back []*Thread
				for _, th := range en {
					if s.postponed[th] {
						back = append(back, th)
					} else {
						front = append(front, th)
					}
				}
				if len(front) == 0 {
					delete(s.postponed, back[0])
				} else if len(back) > 0 && curEn && s.postponed[en[0]] {
					curEn = false // the running thread is postponed: the default is somebody else
				}
				en = append(front, back...)
			}
			choice := 0
			n := len(en)
			if adv {
				n++
			}
			pp := s.postpone && len(en) > 1 && !s.postponed[en[1]]
			if pp {
				n++
			}
			if n > 1 {
				ids := make([]int, 0, n)
				for _, th := range en {
					ids = append(ids, th.ID)
				}
				if adv {
					ids = append(ids, -1)
				}
				if pp {
					ids = append(ids, -2)
				}
				choice = s.choose("thread", n, "", "", ids, curEn, adv, pp)
				if pp && choice == n-1 { // postpone the default thread, run the next one
					s.postponed[en[0]] = true
					if s.TraceOn {
						s.Trace = append(s.Trace, Step{I: len(s.Trace), Thread: en[0].ID, Name: en[0].Name, Op: "POSTPONED", At: en[0].at})
					}
					choice = 1
				} else if choice < len(en) && choice > 0 {
					delete(s.postponed, en[choice]) // explicitly chosen
				}
				if choice < len(en) {
					p := &s.Points[len(s.Points)-1]
					p.Op, p.At = en[choice].op, en[choice].at
				}
			}
			if choice >= len(en) { // advance virtual time to the next short timer
				if s.TraceOn {
					s.Trace = append(s.Trace, Step{I: len(s.Trace), Thread: -1, Op: "advance-time"})
				}
				s.sleeping = true
				s.cur = nil
				// wake up just AFTER the deadline: the scheduler's own timer must not compete with the
				// threads' timers of the same instant (their firing order is not defined)
				select {
				case <-s.wakeSched:
					time.Sleep(time.Nanosecond)
				case <-time.After(next.Sub(now) + time.Nanosecond):
				}
				s.sleeping = false
				continue
			}
			s.cur = en[choice]
			if s.TraceOn {
				s.Trace = append(s.Trace, Step{I: len(s.Trace), Thread: s.cur.ID, Name: s.cur.Name, Op: s.cur.op, At: s.cur.at})
			}
			s.cur.st = running
			s.cur.wake <- struct{}{}
		}
	})
	return
}

// Threads returns the registered threads.
func (s *Sched) Threads() []*Thread { return s.thrs }

// MainDone reports whether the driver's main thread returned.
func (s *Sched) MainDone() bool { return s.main != nil && s.main.st == done }

// State describes a thread for diagnostics.
func (t *Thread) State() string {
	return [...]string{"ready", "running", "resume", "blocked", "disabled", "done"}[t.st] + " " + t.op + " " + t.at
}

// Choices returns the choice taken at every point.
func (s *Sched) Choices() []int {
	out := make([]int, len(s.Points))
	for i, p := range s.Points {
		out[i] = p.Chosen
	}
	return out
}

// Dump describes all threads (diagnostics for deadlocks).
func (s *Sched) Dump() string {
	var b strings.Builder
	for _, t := range s.thrs {
		if t.st != done {
			fmt.Fprintf(&b, "  thread %d (%s): %s\n", t.ID, t.Name, t.State())
		}
	}
	return b.String()
}
