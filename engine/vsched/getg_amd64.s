#include "textflag.h"

// func getg() uintptr
TEXT ·getg(SB),NOSPLIT,$0-8
	MOVQ (TLS), R14
	MOVQ R14, ret+0(FP)
	RET
