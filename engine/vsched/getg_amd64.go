package vsched

// getg returns the address of the calling goroutine's runtime.g, used as goroutine identity
// (the g of a live goroutine is never reused; registered threads stay alive for the whole
// execution). runtime.Stack-based identification cost 60% of the exploration time.
func getg() uintptr

func gid() int64 { return int64(getg()) }
