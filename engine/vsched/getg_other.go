//go:build !amd64

package vsched

import "runtime"

// gid returns the runtime id of the calling goroutine (parsed from the stack header).
func gid() int64 {
	var buf [64]byte
	n := runtime.Stack(buf[:], false)
	var id int64
	for _, c := range buf[len("goroutine "):n] {
		if c < '0' || c > '9' {
			break
		}
		id = id*10 + int64(c-'0')
	}
	return id
}
