module verif

go 1.23.0

require (
	golang.org/x/tools v0.32.0
	perun.network/go-perun v0.0.0
	polycry.pt/poly-go v0.0.0-20220301085937-fb9d71b45a37
)

require (
	github.com/davecgh/go-spew v1.1.1 // indirect
	github.com/google/uuid v1.6.0 // indirect
	github.com/pkg/errors v0.9.1 // indirect
	github.com/pmezard/go-difflib v1.0.0 // indirect
	github.com/stretchr/testify v1.10.0 // indirect
	gopkg.in/yaml.v3 v3.0.1 // indirect
)

replace perun.network/go-perun => /repo
