module verif

go 1.23.0

require (
	golang.org/x/crypto v0.37.0
	golang.org/x/tools v0.32.0
	google.golang.org/protobuf v1.36.6
	perun.network/go-perun v0.0.0
	polycry.pt/poly-go v0.0.0-20220301085937-fb9d71b45a37
)

require (
	github.com/davecgh/go-spew v1.1.1 // indirect
	github.com/golang/snappy v0.0.4 // indirect
	github.com/google/uuid v1.6.0 // indirect
	github.com/pkg/errors v0.9.1 // indirect
	github.com/pmezard/go-difflib v1.0.0 // indirect
	github.com/sirupsen/logrus v1.9.3 // indirect
	github.com/stretchr/testify v1.10.0 // indirect
	github.com/syndtr/goleveldb v1.0.1-0.20210819022825-2ae1ddf74ef7 // indirect
	golang.org/x/sync v0.13.0 // indirect
	golang.org/x/sys v0.32.0 // indirect
	gopkg.in/yaml.v3 v3.0.1 // indirect
)

replace perun.network/go-perun => /repo
